"""Twin battery (thorough tier): AST-computed variants of the anchored source files.

*Broken twins* apply one small fault-like edit (operator swap, comparison flip,
constant change, argmax/argmin, axis flip, dropped transpose, swapped matmul
operands, deleted in-place update) at one site; the property's obligations are
re-evaluated on the in-memory overlay (nothing is written to disk, nothing is
executed).  The kill rate is a measured sensitivity figure for the evidence file;
survivors are listed (equivalent or outside the claimed clauses) and are not
failures.  *Benign twins* apply behaviour-preserving edits (commuted sums and
elementwise products, mirrored comparisons, consistently renamed locals) to whole
files; a benign twin that makes the check report a VIOLATION is a false alarm of
the checker and is reported as ANALYSIS-ERROR (exit 2), never as a violation.
"""
from __future__ import annotations

import ast
import copy
import importlib
import json
import os
import sys
from concurrent.futures import ProcessPoolExecutor

SWAP_BIN = {ast.Add: ast.Sub, ast.Sub: ast.Add, ast.Mult: ast.Div, ast.Div: ast.Mult}
SWAP_CMP = {ast.Lt: ast.LtE, ast.LtE: ast.Lt, ast.Gt: ast.GtE, ast.GtE: ast.Gt, ast.Eq: ast.NotEq, ast.NotEq: ast.Eq}
FLIP_CMP = {ast.Lt: ast.Gt, ast.Gt: ast.Lt, ast.LtE: ast.GtE, ast.GtE: ast.LtE}
SWAP_NAME = {"argmax": "argmin", "argmin": "argmax", "minimum": "maximum", "maximum": "minimum", "max": "min", "min": "max", "floor": "round", "round": "floor", "sin": "cos", "cos": "sin"}


def _functions(tree):
    for n in ast.walk(tree):
        if isinstance(n, (ast.FunctionDef, ast.Lambda)):
            yield n


def _in_raise_or_warn(parents):
    for p in parents:
        if isinstance(p, ast.Raise):
            return True
        if isinstance(p, ast.Call) and isinstance(p.func, ast.Attribute) and p.func.attr == "warn":
            return True
        if isinstance(p, ast.JoinedStr):
            return True
    return False


def _sites(tree):
    """(path of child indices, node, parents) for every node inside function bodies"""
    out = []

    def rec(node, path, parents, infunc):
        for field, value in ast.iter_fields(node):
            if isinstance(value, list):
                for i, v in enumerate(value):
                    if isinstance(v, ast.AST):
                        nf = infunc or isinstance(v, ast.FunctionDef)
                        if nf:
                            out.append((path + [(field, i)], v, parents + [node]))
                        rec(v, path + [(field, i)], parents + [node], nf)
            elif isinstance(value, ast.AST):
                if infunc:
                    out.append((path + [(field, None)], value, parents + [node]))
                rec(value, path + [(field, None)], parents + [node], infunc)

    rec(tree, [], [], False)
    return out


def _get(tree, path):
    n = tree
    for field, i in path:
        n = getattr(n, field)
        if i is not None:
            n = n[i]
    return n


def _set(tree, path, new):
    n = tree
    for field, i in path[:-1]:
        n = getattr(n, field)
        if i is not None:
            n = n[i]
    field, i = path[-1]
    if i is None:
        setattr(n, field, new)
    else:
        getattr(n, field)[i] = new


def _delete(tree, path):
    n = tree
    for field, i in path[:-1]:
        n = getattr(n, field)
        if i is not None:
            n = n[i]
    field, i = path[-1]
    lst = getattr(n, field)
    lst[i] = ast.Pass()


def broken_twins(source, relpath, limit=None):
    """yield (description, line, new_source)"""
    tree = ast.parse(source)
    sites = _sites(tree)
    out = []
    for path, node, parents in sites:
        if _in_raise_or_warn(parents):
            continue
        if any(isinstance(p, ast.FunctionDef) and p.name in ("__repr__", "_more_tags") for p in parents):
            continue
        line = getattr(node, "lineno", 0)
        muts = []
        if isinstance(node, ast.BinOp) and type(node.op) in SWAP_BIN:
            if not (isinstance(node.left, ast.Constant) and isinstance(node.left.value, str)):
                m = copy.deepcopy(node)
                m.op = SWAP_BIN[type(node.op)]()
                muts.append((f"{type(node.op).__name__}->{type(m.op).__name__}", m))
        if isinstance(node, ast.BinOp) and isinstance(node.op, ast.MatMult):
            m = copy.deepcopy(node)
            m.left, m.right = m.right, m.left
            muts.append(("swap matmul operands", m))
        if isinstance(node, ast.Compare) and len(node.ops) == 1:
            if type(node.ops[0]) in SWAP_CMP:
                m = copy.deepcopy(node)
                m.ops = [SWAP_CMP[type(node.ops[0])]()]
                muts.append((f"{type(node.ops[0]).__name__}->{type(m.ops[0]).__name__}", m))
            if type(node.ops[0]) in FLIP_CMP:
                m = copy.deepcopy(node)
                m.ops = [FLIP_CMP[type(node.ops[0])]()]
                muts.append((f"{type(node.ops[0]).__name__}->{type(m.ops[0]).__name__}", m))
        if isinstance(node, ast.Constant) and isinstance(node.value, (int, float)) and not isinstance(node.value, bool):
            par = parents[-1]
            if not isinstance(par, (ast.arguments, ast.keyword)) or (isinstance(par, ast.keyword) and par.arg == "axis"):
                v = node.value
                if isinstance(par, ast.keyword) and par.arg == "axis":
                    nv = 1 - v if v in (0, 1) else v
                else:
                    nv = v + 1 if isinstance(v, int) else v * 2
                if nv != v:
                    muts.append((f"constant {v}->{nv}", ast.Constant(nv)))
        if isinstance(node, ast.Attribute) and node.attr in SWAP_NAME and isinstance(parents[-1], ast.Call) and parents[-1].func is node:
            m = copy.deepcopy(node)
            m.attr = SWAP_NAME[node.attr]
            muts.append((f"{node.attr}->{m.attr}", m))
        if isinstance(node, ast.Attribute) and node.attr == "T" and isinstance(node.ctx, ast.Load):
            muts.append(("drop .T", copy.deepcopy(node.value)))
        if isinstance(node, (ast.AugAssign,)) or (isinstance(node, ast.Assign) and any(isinstance(t, ast.Subscript) for t in node.targets)) or (isinstance(node, ast.Expr) and isinstance(node.value, ast.Call) and isinstance(node.value.func, ast.Attribute) and node.value.func.attr in ("minimum", "maximum", "fill_diagonal", "append")):
            if path[-1][1] is not None:
                muts.append(("delete statement", None))
        for desc, new in muts:
            t2 = copy.deepcopy(tree)
            if new is None:
                _delete(t2, path)
            else:
                _set(t2, path, new)
            try:
                ast.fix_missing_locations(t2)
                src = ast.unparse(t2)
                ast.parse(src)
            except Exception:
                continue
            out.append((desc, line, src))
    if limit is not None and len(out) > limit:
        step = len(out) / limit
        out = [out[int(i * step)] for i in range(limit)]
    return out


class _Benign(ast.NodeTransformer):
    def __init__(self):
        self.n = 0

    def visit_BinOp(self, node):
        self.generic_visit(node)
        if isinstance(node.op, ast.Add) and not any(isinstance(x, (ast.List, ast.Tuple, ast.Constant, ast.JoinedStr, ast.ListComp)) and not (isinstance(x, ast.Constant) and isinstance(x.value, (int, float))) for x in (node.left, node.right)):
            if not _maybe_sequence(node.left) and not _maybe_sequence(node.right):
                self.n += 1
                return ast.BinOp(node.right, ast.Add(), node.left)
        return node

    def visit_Compare(self, node):
        self.generic_visit(node)
        if len(node.ops) == 1 and type(node.ops[0]) in FLIP_CMP:
            self.n += 1
            return ast.Compare(node.comparators[0], [FLIP_CMP[type(node.ops[0])]()], [node.left])
        return node


def _maybe_sequence(n):
    """conservatively: operands that could be python lists / strings are not commuted"""
    if isinstance(n, (ast.List, ast.Tuple, ast.ListComp, ast.JoinedStr)):
        return True
    if isinstance(n, ast.Constant) and isinstance(n.value, str):
        return True
    if isinstance(n, ast.Name) and n.id in ("lens", "train_test_sets"):
        return True
    if isinstance(n, ast.Call) and isinstance(n.func, ast.Attribute) and n.func.attr in ("tolist", "format"):
        return True
    if isinstance(n, ast.BinOp) and isinstance(n.op, ast.Mod):
        return True
    return False


class _Rename(ast.NodeTransformer):
    """rename local variables of every function consistently (params are kept)"""

    def visit_FunctionDef(self, node):
        params = {a.arg for a in node.args.posonlyargs + node.args.args + node.args.kwonlyargs}
        if node.args.vararg:
            params.add(node.args.vararg.arg)
        if node.args.kwarg:
            params.add(node.args.kwarg.arg)
        # nested functions capture names: keep it simple and skip functions with inner defs/lambdas/comprehension scopes
        for x in ast.walk(node):
            if x is not node and isinstance(x, (ast.FunctionDef, ast.Lambda, ast.Global, ast.Nonlocal)):
                self.generic_visit(node)
                return node
        locs = set()
        for x in ast.walk(node):
            if isinstance(x, ast.Name) and isinstance(x.ctx, ast.Store):
                locs.add(x.id)
        locs -= params
        mapping = {n: f"{n}_r" for n in locs if not n.startswith("__")}
        for x in ast.walk(node):
            if isinstance(x, ast.Name) and x.id in mapping:
                x.id = mapping[x.id]
        return node


def benign_twins(source):
    out = []
    t = ast.parse(source)
    b = _Benign()
    t2 = b.visit(copy.deepcopy(t))
    ast.fix_missing_locations(t2)
    if b.n:
        out.append((f"commuted {b.n} sums / mirrored comparisons", ast.unparse(t2)))
    t3 = _Rename().visit(copy.deepcopy(t))
    ast.fix_missing_locations(t3)
    out.append(("locals renamed", ast.unparse(t3)))
    return out


# ---------------------------------------------------------------------------
# running a property on an overlay (worker)
# ---------------------------------------------------------------------------


def _run(job):
    prop, overlay_rel, src = job
    sys.setrecursionlimit(20000)
    from . import harness

    known = {k["key"] for k in harness.load_known().get("known", []) if k.get("property") == prop}
    try:
        spec = importlib.import_module(f"sa.specs.{prop}")
        ctx = harness.Ctx(prop, "quick", overlay={overlay_rel: src})
        spec.check(ctx)
        viol = sorted({o.key() for o in ctx.obligations if o.status == "violation" and o.key() not in known})
        err = sorted({o.key() for o in ctx.obligations if o.status == "error"})
        return ("violation" if viol else ("error" if err else "silent"), (viol or err)[:2])
    except Exception as e:  # anchors vanished, interpreter gave up ... : detected as analysis error
        return ("error", [f"{type(e).__name__}: {e}"[:160]])


def battery(prop, files, root, limit_per_file=60, jobs=16):
    """returns dict with counts and samples"""
    broken_jobs, meta = [], []
    benign_jobs, bmeta = [], []
    for rel in files:
        path = os.path.join(root, rel)
        if not os.path.exists(path):
            continue
        with open(path, encoding="utf-8") as fh:
            src = fh.read()
        for desc, line, new in broken_twins(src, rel, limit_per_file):
            broken_jobs.append((prop, rel, new))
            meta.append((rel, line, desc))
        for desc, new in benign_twins(src):
            benign_jobs.append((prop, rel, new))
            bmeta.append((rel, desc))
    with ProcessPoolExecutor(max_workers=jobs) as ex:
        bres = list(ex.map(_run, broken_jobs, chunksize=2))
        gres = list(ex.map(_run, benign_jobs, chunksize=1))
    killed = [(m, r) for m, r in zip(meta, bres) if r[0] == "violation"]
    errored = [(m, r) for m, r in zip(meta, bres) if r[0] == "error"]
    survived = [(m, r) for m, r in zip(meta, bres) if r[0] == "silent"]
    false_alarms = [(m, r) for m, r in zip(bmeta, gres) if r[0] != "silent"]
    dump = os.environ.get("VERIF_TWIN_DUMP")
    if dump:
        import json as _json

        with open(dump, "w") as fh:
            _json.dump({"prop": prop, "survived": [{"file": m[0], "line": m[1], "edit": m[2]} for m, r in survived], "errored": [{"file": m[0], "line": m[1], "edit": m[2], "keys": r[1]} for m, r in errored], "killed": [{"file": m[0], "line": m[1], "edit": m[2], "rule": r[1][0] if r[1] else ""} for m, r in killed]}, fh, indent=0)
    return {
        "broken_total": len(broken_jobs),
        "broken_killed": len(killed),
        "broken_analysis_error": len(errored),
        "broken_survived": len(survived),
        "benign_total": len(benign_jobs),
        "benign_false_alarms": [{"file": m[0], "twin": m[1], "verdict": r[0], "keys": r[1]} for m, r in false_alarms],
        "killed_samples": [{"file": m[0], "line": m[1], "edit": m[2], "rule": r[1][0] if r[1] else ""} for m, r in killed[:8]],
        "survivor_samples": [{"file": m[0], "line": m[1], "edit": m[2]} for m, r in survived[:25]],
    }
