"""Run the BASELINE pytest command on a tree (default /repo) and compare with BASELINE.json stable_pass."""
import json,subprocess,sys,os,tempfile,xml.etree.ElementTree as ET
repo=sys.argv[1] if len(sys.argv)>1 else '/repo'
b=json.load(open('/root/.vp/BASELINE.json'))
fd,xmlp=tempfile.mkstemp(suffix='.xml',dir='/dev/shm');os.close(fd)
env=dict(os.environ)
if repo!='/repo': env['PYTHONPATH']=repo+'/src'
subprocess.run(['/venv/bin/python','-m','pytest','-q','-p','no:cacheprovider','--timeout=900','--continue-on-collection-errors','--junitxml='+xmlp],cwd=repo,env=env,stdout=subprocess.DEVNULL,stderr=subprocess.DEVNULL)
passed=set()
for tc in ET.parse(xmlp).getroot().iter('testcase'):
    if not any(c.tag in('failure','error','skipped') for c in tc):
        passed.add(tc.get('classname')+'::'+tc.get('name'))
os.unlink(xmlp)
sp=set(b['stable_pass'])
missing=sorted(sp-passed)
print('stable_pass',len(sp),'passed now',len(passed),'missing',len(missing))
for m in missing[:20]: print('  MISSING',m)
sys.exit(1 if missing else 0)
