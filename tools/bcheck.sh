#!/bin/sh
# bcheck.sh <patch> <prop> : apply patch to scratch copy and show the non-ok lines of the check
d=/dev/shm/bchk.$$; mkdir -p $d/src; cp -r /repo/src/skmatter $d/src/; patch -p1 -s -d $d -i $1 || exit 3
SKMATTER_SRC=$d/src/skmatter /venv/bin/python /verif/check.py $2 2>&1 | grep -v "^  ok"
rm -rf $d
