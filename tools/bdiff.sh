#!/bin/sh
# bdiff.sh <patch> <prop> [n] : first n mismatch sites of the check on the patched tree
d=/dev/shm/bchk.$$; mkdir -p $d/src; cp -r /repo/src/skmatter $d/src/; patch -p1 -s -d $d -i $1 || exit 3
SKMATTER_SRC=$d/src/skmatter /venv/bin/python /verif/check.py $2 2>&1 | grep -v "^  ok\|KNOWN\|^VIOLATION\|analysed" | sed 's/ || code:.*//' | cut -c1-${4:-1100} | head -${3:-3}
rm -rf $d
