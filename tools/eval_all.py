"""evaluate all agent-written changes (breaking in _out, benign in _benign) against the property's own check"""
import glob,os,subprocess,sys,re
from concurrent.futures import ThreadPoolExecutor
jobs=[]
for d in sorted(glob.glob('/tmp/wt/C*/_out/change_*'))+sorted(glob.glob('/tmp/wt/C*/_benign/change_*')):
    p=re.search(r'/(C\d\d)/',d).group(1); kind='break' if '/_out/' in d else 'benign'
    if os.path.exists(d+'/patch.diff'): jobs.append((p,kind,d))
def run(j):
    p,kind,d=j
    r=subprocess.run(['/venv/bin/python','/verif/tools/seedcheck.py',d+'/patch.diff',p],capture_output=True,text=True)
    last=r.stdout.strip().splitlines()[-1] if r.stdout.strip() else r.stderr[-200:]
    return p,kind,os.path.basename(d),last
with ThreadPoolExecutor(6) as ex:
    res=list(ex.map(run,jobs))
bad=0
for p,kind,name,last in res:
    fired = ("'"+p+"'") in last.split('ERR')[0]
    err = ("'"+p+"'") in last.split('ERR')[-1] if 'ERR' in last else False
    status = 'VIOLATION' if fired else ('UNDECIDED' if err else 'silent')
    flag = ''
    if kind=='break' and status!='VIOLATION': flag='  <-- MISS'; bad+=1
    if kind=='benign' and status=='VIOLATION': flag='  <-- FALSE ALARM'; bad+=1
    print(f'{p} {kind:6s} {name}: {status}{flag}')
print('problems:',bad)
