"""(re)generate MANIFEST.json from sa/specs/*.py that exist; everything else -> not_applicable"""
import json,os,sys,importlib
sys.path.insert(0,'/verif')
props=[json.loads(l) for l in open('/verif/properties.jsonl')]
TECH={
 'C01':'abstract interpretation (symbolic shapes, slot/value numbering) + CFG path rules over the greedy loop',
 'C02':'abstract interpretation to algebraic normal form, compared with a reference model; symbolic shapes',
 'C09':'origin/alias + effect analysis over all public entry points; refit state diff',
}
NA={}
checks=[];na=[]
for p in props:
    pid=p['id']
    if os.path.exists(f'/verif/sa/specs/{pid}.py'):
        doc=importlib.import_module(f'sa.specs.{pid}').__doc__.strip()
        checks.append({"property_id":pid,"quick_cmd":f"/venv/bin/python /verif/check.py {pid} --tier quick","thorough_cmd":f"/venv/bin/python /verif/check.py {pid} --tier thorough","evidence_file":f"/verif/evidence/{pid}.json","replay_cmd_template":f"/venv/bin/python /verif/check.py {pid} --replay {{path}}","engine":"sa",
          "level_claimed":{"category":"other","text":"static conformance of named structural obligations (necessary conditions of the property), decided from the source on every run; not a numerical claim. "+doc.split('\n\n')[0].replace('\n',' ')[:600],"design_ref":f"DESIGN.md section 4 ({pid})"},
          "level_note":"trusted base: python ast of /repo/src/skmatter; transfer functions for numpy/scipy/sklearn in sa/api_*.py (read from sklearn 1.5.2 / numpy 2.2.6); reference models in /verif/ref; size symbols are distinct and >= 1. "+doc[:1500].replace('\n',' '),
          "technique":TECH.get(pid,'static analysis: abstract interpretation over the AST (symbolic shapes, value numbering to an algebraic normal form, origin/effect tracking) + reference-model comparison')})
    else:
        na.append({"property_id":pid,"reason":NA.get(pid,"check not built yet (build round in progress; see DESIGN.md section 4 for the planned obligations)")})
m={"version":1,"setup_cmd":"true","hooks":{"guard":"SKMATTER_VERIF","enable":"no hooks: the checks parse /repo/src/skmatter (ast) and never import or run it","baseline_off_cmd":"cd /repo && /venv/bin/python -m pytest -ra -q -p no:cacheprovider --timeout=900 --continue-on-collection-errors","source_commits":[],"add_only":True},
"engines":[{"name":"sa","path":"/verif/sa","serves_properties":[c['property_id'] for c in checks],"kind_free_text":"stdlib-ast abstract interpreter (symbolic shapes, origin/effects, provenance labels, value numbering to an algebraic normal form) + reference models + per-property obligation tables"}],
"checks":checks,"not_applicable":na,"notes":"static analysis only; exit 0 ok / 1 VIOLATION / 2 ANALYSIS-ERROR; known findings in /verif/known_findings.json"}
json.dump(m,open('/verif/MANIFEST.json','w'),indent=1)
print(len(checks),'checks',len(na),'n/a')
