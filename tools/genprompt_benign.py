import json,glob
props=[json.loads(l) for l in open('/verif/properties.jsonl')]
STEER="""In this round make REFACTORINGS THAT LOOK RISKY BUT ARE CORRECT - the behaviour-preserving mirror images of typical regressions: (a) extract a private helper used by two or more call sites, changing its contract slightly (it returns the squared quantity / a tuple / takes precomputed pieces) with EVERY caller adapted; (b) cache or precompute a value in `fit` (a private attribute, a local closure) that is correctly recomputed / invalidated on every refit and under every configuration, so that no history can observe a stale value; (c) add input conversions or validation (`np.asarray(x, dtype=float)`, `np.ascontiguousarray`, `check_array`, `astype(float, copy=False)`) where the result is USED through the returned value (never relying on in-place side effects on the argument); (d) move a guard between a callee and ALL of its callers; (e) edit both branches of a configuration switch consistently (feature/sample space, precomputed/named kernel, 1-D/2-D target, cell/no cell, weighted/unweighted); (f) a correct `fit_transform` shortcut or a correct reuse of an intermediate between two methods. Keep each edit between 5 and 40 changed lines, in the code that implements the property, and verify agreement (bit-for-bit or 1e-12) on inputs that exercise the edited branches, including a multi-step history (fit -> set_params -> fit, refit on data of another size, warm start, float32 / integer input where admissible)."""
for p in props:
    pid=p['id']; wt=f'/tmp/wtb/{pid}'
    s=f"""You are helping to measure the FALSE-ALARM rate of a verification tool for the Python library scikit-matter (scikit-learn-contrib/scikit-matter). You work ONLY inside your own scratch git worktree of the library at {wt} (source in {wt}/src/skmatter, tests in {wt}/tests). Do not read or write anything under /verif or /repo, and do not look at other directories under /tmp/wtb. No network. NEVER use `git stash` (it is shared between worktrees); use `git diff > file`, `git checkout -- src`, `git apply file`. Python is /venv/bin/python; run your code with PYTHONPATH={wt}/src so that YOUR worktree's source is imported.

THE PROPERTY ({pid}): {p['title']}
Statement: {p['statement']}
Quantified {json.dumps(p['quantifier'])}

YOUR TASK: produce THREE independent BEHAVIOUR-PRESERVING edits of the library source code that implements this property: edits a maintainer could make (refactoring, optimisation, clean-up) after which the property STILL HOLDS for every admissible input, configuration and history, every public result is unchanged (up to floating-point round-off of 1e-12 relative) and the existing test suite passes exactly as before (`cd {wt} && OMP_NUM_THREADS=1 OPENBLAS_NUM_THREADS=1 PYTHONPATH={wt}/src /venv/bin/python -m pytest -q -p no:cacheprovider --timeout=900 tests`; on the clean tree 3 TestCUR tests that need a network fail - expected). Be careful and honest: an edit that changes behaviour for ANY admissible input (including rank-deficient data, 1-D targets, float32 or integer input, refits, warm starts) is NOT acceptable - if in doubt, drop it.

{STEER}

OUTPUT: for edit k in 1..3 create {wt}/_benign10/change_k/ containing
 - patch.diff : `git diff` of ONLY that edit against the clean tree (must apply with `git apply`; files under src/ only),
 - demo.py    : a deterministic stand-alone program (< 20 s) that compares the outputs of the public API on several inputs/configurations/histories with values it computes itself from the definition or with hard-coded expected numbers obtained on the clean tree, exits 0 when they agree; it must exit 0 BOTH on the clean tree and with the edit applied,
 - notes.md   : first line `# change_k - <one-line description>`; then what was changed, why it is behaviour-preserving, and the commands you ran with their results.
After saving each edit restore the worktree (`git checkout -- src`). Do not commit.

The machine is shared with 19 other workers: always set OMP_NUM_THREADS=1 OPENBLAS_NUM_THREADS=1, never run more than one pytest at a time, never use pytest -n. Work for at most about 20 minutes in total. Keep every message you write short; your FINAL message must be under 150 words (the files hold the details)."""
    open(f'/tmp/wtb/{pid}.benign10.txt','w').write(s)
print(len(s))
