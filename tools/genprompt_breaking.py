import json,os,glob,re
props=[json.loads(l) for l in open('/verif/properties.jsonl')]
STEER="""In this round plant faults made of TWO COOPERATING SITES that each look fine alone, or faults that need a MULTI-STEP HISTORY: (a) a helper whose contract is changed slightly (returns a view instead of a copy, a different default, a different normalisation, one more or one fewer element, squared instead of plain) with all callers but ONE adapted; (b) a value cached / precomputed at one place (in fit, in __init__, in a private attribute, in a closure) and consumed at another place that no longer agrees with how it is produced after a particular sequence of calls (fit -> set_params -> fit, fit -> transform on other data -> inverse_transform, warm start after a cold fit with another configuration, fit on data of another width / dtype, clone, pickle round trip); (c) two branches of a configuration switch (space='feature' vs 'sample', precomputed vs named kernel, dense vs truncated solver, 1-D vs 2-D target, cell vs no cell, weighted vs unweighted) that must compute the same quantity and of which only one is edited; (d) a guard moved from a callee to one of its callers so that another caller is unprotected. Each change must be SILENT (no exception, same shapes) for admissible inputs of the quantification, must violate a clause of the property statement as written, must NOT be exposed by ordinary use (one default fit on well-conditioned data) and should differ in location and kind from everything listed above."""
for p in props:
    pid=p['id']
    prior=[]
    for d in sorted(glob.glob(f'/verif/seeded/{pid}-*'),key=lambda s:int(s.rsplit('-',1)[1])):
        try:
            n=open(d+'/notes.md').read()
        except Exception: continue
        lines=[l.strip() for l in n.splitlines() if l.strip()][:2]
        prior.append('- '+' | '.join(lines)[:200])
    wt=f'/tmp/wt/{pid}'
    s=f"""You are testing how robust a property of the Python library scikit-matter (scikit-learn-contrib/scikit-matter) is against realistic regressions. You work ONLY inside your own scratch git worktree of the library at {wt} (source in {wt}/src/skmatter, tests in {wt}/tests). Do not read or write anything under /verif or /repo, and do not look at other directories under /tmp/wt. No network. Python is /venv/bin/python (the library's dependencies are installed there; run your code with PYTHONPATH={wt}/src so that YOUR worktree's source is imported — verify with `python -c "import skmatter; print(skmatter.__file__)"`).

THE PROPERTY ({pid}): {p['title']}
Statement: {p['statement']}
Quantified {json.dumps(p['quantifier'])}
Why the tests cannot settle it: {p.get('why_tests_cant','')}

YOUR TASK (ROUND 10): produce up to THREE independent changes to the library source (each a small, realistic edit a developer could make during a refactoring, optimisation or feature addition — not sabotage with obvious markers, no comments that give it away) such that, for each change separately:
 1. the library still imports and the existing test suite still passes exactly as on the clean tree (run: `cd {wt} && OMP_NUM_THREADS=1 OPENBLAS_NUM_THREADS=1 PYTHONPATH={wt}/src /venv/bin/python -m pytest -q -p no:cacheprovider --timeout=900 -x -q tests` ; on the clean tree 3 TestCUR tests that need a network fail — that is expected, compare against the clean result; to save time you may run only the test files that touch what you edited while developing, but run the full suite once per final change; the suite takes 1-2 minutes);
 2. the property above is violated for some admissible input / configuration / history of its quantification;
 3. you write a demonstration `demo.py` (a small stand-alone program using only numpy/scipy/sklearn/skmatter, deterministic, < 20 s) that exits 0 on the clean tree and exits non-zero (assert) with the change applied, checking a clause of the property as stated (not an implementation detail).

Earlier rounds already produced the changes below; do something DIFFERENT in location and kind:
{chr(10).join(prior[-40:])}

{STEER}

OUTPUT: for change k in 1..3 create the directory {wt}/_out10/change_k/ containing
 - patch.diff : `git diff` of ONLY that change against the clean tree (must apply with `git apply` on the clean tree; source files under src/ only; do not edit tests),
 - demo.py    : the demonstration,
 - notes.md   : first line `# change_k - <one-line description>`; then: file/function changed, what the change is, which clause it breaks, what it needs in order to manifest, the exact commands you ran and their results (demo on clean tree, demo with the change, test suite with the change).
After saving each change, restore the worktree to the clean state (`git checkout -- src`), and verify patch.diff applies on it. Do not commit. Do not leave the worktree patched at the end.

The machine is shared with 19 other workers: always set OMP_NUM_THREADS=1 OPENBLAS_NUM_THREADS=1, do not run more than one pytest at a time, and never use pytest -n. Work for at most about 25 minutes in total; two good changes are better than three doubtful ones. Keep every message you write short; your FINAL message must be under 200 words (the files hold the details)."""
    open(f'/tmp/wt/{pid}.prompt10.txt','w').write(s)
print(len(s)); print(s[:300])
