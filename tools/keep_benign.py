"""keep_benign.py <prop> <k> <srcdir> <dst_k>: confirm a behaviour-preserving edit (demo exits 0 before and after, suite unchanged) and store it under /verif/benign/<prop>-<dst_k>/"""
import os,shutil,subprocess,sys,tempfile
prop,k,src,dk=sys.argv[1:5]
wt=tempfile.mkdtemp(prefix='confirmb',dir='/tmp'); os.rmdir(wt)
env=dict(os.environ,OMP_NUM_THREADS='1',OPENBLAS_NUM_THREADS='1')
def sh(cmd,**kw): return subprocess.run(cmd,shell=True,capture_output=True,text=True,env=kw.pop('env',env),**kw)
try:
    assert sh(f'git -C /repo worktree add -q {wt} HEAD').returncode==0
    e2=dict(env,PYTHONPATH=wt+'/src')
    d0=sh(f'/venv/bin/python {src}/demo.py',env=e2,cwd=wt).returncode
    ap=sh(f'git apply {src}/patch.diff',cwd=wt)
    if ap.returncode!=0: print(f'{prop}-{dk}: patch does not apply: {ap.stderr[:200]}'); sys.exit(0)
    d1=sh(f'/venv/bin/python {src}/demo.py',env=e2,cwd=wt).returncode
    bl=sh(f'/venv/bin/python /verif/tools/baseline_cmp.py {wt}')
    ok=d0==0 and d1==0 and bl.returncode==0
    print(f'{prop}-{dk}: demo clean rc={d0} edited rc={d1}; suite: {bl.stdout.strip().splitlines()[0] if bl.stdout else bl.stderr[:100]} -> {"KEPT" if ok else "NOT KEPT"}')
    if ok:
        dst=f'/verif/benign/{prop}-{dk}'; os.makedirs(dst,exist_ok=True)
        for f in ('patch.diff','notes.md','demo.py'):
            if os.path.exists(src+'/'+f): shutil.copy(src+'/'+f,dst+'/'+f)
finally:
    sh(f'git -C /repo worktree remove --force {wt}')
