"""keep_seed.py <prop> <k> [srcdir] [dst_k] : confirm an agent-produced change in a fresh scratch worktree and store it under /verif/seeded/<prop>-<k>/.
Confirms: demo exits 0 on the clean tree, non-zero with the patch; the BASELINE stable_pass tests all still pass with the patch.
Then runs the property's check (and all others) on a scratch copy with the patch and records which fire."""
import json,os,shutil,subprocess,sys,tempfile,time
prop,k=sys.argv[1],sys.argv[2]
src=sys.argv[3] if len(sys.argv)>3 else f'/tmp/wt/{prop}/_out/change_{k}'
dk=sys.argv[4] if len(sys.argv)>4 else k
assert os.path.exists(src+'/patch.diff'),src
wt=tempfile.mkdtemp(prefix='confirm',dir='/tmp')
os.rmdir(wt)
env=dict(os.environ,OMP_NUM_THREADS='1',OPENBLAS_NUM_THREADS='1')
def sh(cmd,**kw): return subprocess.run(cmd,shell=True,capture_output=True,text=True,env=kw.pop('env',env),**kw)
try:
    r=sh(f'git -C /repo worktree add -q {wt} HEAD'); assert r.returncode==0,r.stderr
    e2=dict(env,PYTHONPATH=wt+'/src')
    demo=src+'/demo.py'
    d0=sh(f'/venv/bin/python {demo}',env=e2,cwd=wt).returncode
    ap=sh(f'git apply {src}/patch.diff',cwd=wt); assert ap.returncode==0,ap.stderr
    d1=sh(f'/venv/bin/python {demo}',env=e2,cwd=wt).returncode
    t=time.time()
    bl=sh(f'/venv/bin/python /verif/tools/baseline_cmp.py {wt}')
    suite_ok=bl.returncode==0
    print(f'{prop}-{dk}: demo clean rc={d0} mutant rc={d1}; suite with mutant: {bl.stdout.strip().splitlines()[0] if bl.stdout else bl.stderr[:200]} ({time.time()-t:.0f}s)')
    fired=sh(f'/venv/bin/python /verif/tools/seedcheck.py {src}/patch.diff').stdout.strip().splitlines()
    summary=fired[-1] if fired else ''
    print('   checks:',summary)
    ok=(d0==0 and d1!=0 and suite_ok)
    if ok:
        dst=f'/verif/seeded/{prop}-{dk}'
        os.makedirs(dst,exist_ok=True)
        for f in ('patch.diff','demo.py','notes.md'):
            if os.path.exists(src+'/'+f): shutil.copy(src+'/'+f,dst+'/'+f)
        notes=open(src+'/notes.md').read() if os.path.exists(src+'/notes.md') else ''
        json.dump({"property":prop,"source":"independent sub-agent given only the property text and a scratch worktree","needs_to_manifest":notes[:1500],
                   "confirmed":{"demo_clean_rc":d0,"demo_mutant_rc":d1,"baseline_stable_pass_with_mutant":suite_ok,"how":"fresh scratch worktree of /repo HEAD under /tmp (removed afterwards); demo.py run with PYTHONPATH=<worktree>/src before and after `git apply patch.diff`; tools/baseline_cmp.py compares the junit result of the BASELINE pytest command with BASELINE.json stable_pass"},
                   "checks_result":summary,"detail":fired[:-1]},open(dst+'/meta.json','w'),indent=1)
    else:
        print('   NOT KEPT')
finally:
    sh(f'git -C /repo worktree remove --force {wt}')
