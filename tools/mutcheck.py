"""mutcheck.py <relfile> <old> <new> <prop>... : run checks on a scratch copy of src/skmatter with one textual edit"""
import os,shutil,subprocess,sys,tempfile
rel,old,new,*props=sys.argv[1:]
d=tempfile.mkdtemp(prefix='mut',dir='/dev/shm')
try:
    shutil.copytree('/repo/src/skmatter',d+'/skmatter')
    p=os.path.join(d,'skmatter',rel)
    s=open(p).read()
    assert s.count(old)>=1,'pattern not found'
    open(p,'w').write(s.replace(old,new,1))
    import ast; ast.parse(open(p).read())
    env=dict(os.environ,SKMATTER_SRC=d+'/skmatter')
    for pr in props:
        r=subprocess.run(['/venv/bin/python','/verif/check.py',pr],env=env,capture_output=True,text=True)
        lines=[l for l in r.stdout.splitlines() if l.startswith(('VIOLATION','ANALYSIS-ERROR','  '))]
        print(pr,'rc',r.returncode, '|', (lines[0][:300] if lines else ''))
finally:
    shutil.rmtree(d)
