"""print a python file without docstrings (reading aid)"""
import ast,sys
class S(ast.NodeTransformer):
    def visit_FunctionDef(self,n):
        self.generic_visit(n)
        if n.body and isinstance(n.body[0],ast.Expr) and isinstance(getattr(n.body[0],'value',None),ast.Constant) and isinstance(n.body[0].value.value,str):
            n.body=n.body[1:] or [ast.Pass()]
        return n
    visit_ClassDef=visit_FunctionDef
    visit_Module=visit_FunctionDef
for f in sys.argv[1:]:
    print('#'*10,f)
    print(ast.unparse(S().visit(ast.parse(open(f).read()))))
