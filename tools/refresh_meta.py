"""refresh_meta.py : re-run every check on every kept change (seeded/*) and store the current result in its meta.json
(checks_result, detail, first_result = what the checks said when the change was first evaluated)."""
import glob,json,os,subprocess,sys
from concurrent.futures import ThreadPoolExecutor
def run(d):
    r=subprocess.run(['/venv/bin/python','/verif/tools/seedcheck.py',d+'patch.diff'],capture_output=True,text=True)
    lines=r.stdout.strip().splitlines()
    return d,lines
dirs=sorted(glob.glob('/verif/seeded/*/'))
if len(sys.argv)>1:
    import re
    dirs=[d for d in dirs if any(re.fullmatch(a,os.path.basename(d.rstrip('/'))) for a in sys.argv[1:])]  # only the named changes (regular expressions)
with ThreadPoolExecutor(int(os.environ.get('JOBS','3'))) as ex:
    for d,lines in ex.map(run,dirs):
        m=json.load(open(d+'meta.json'))
        if 'first_result' not in m: m['first_result']=m.get('checks_result','')
        m['checks_result']=lines[-1] if lines else ''
        m['detail']=lines[:-1]
        json.dump(m,open(d+'meta.json','w'),indent=1)
        print(os.path.basename(d.rstrip('/')),m['checks_result'])
