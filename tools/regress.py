"""regress.py : development regression over the kept change sets.
 /verif/seeded/<prop>-<k>  (independently written BREAKING changes)  -> the property's check must report VIOLATION
 /verif/benign/<prop>-<k>  (independently written BEHAVIOUR-PRESERVING edits) -> the check must not report VIOLATION
Each patch is applied to a scratch copy of /repo/src (the repository is not touched)."""
import glob,os,subprocess,sys,re
from concurrent.futures import ThreadPoolExecutor
jobs=[(re.match(r'(C\d\d)',os.path.basename(d.rstrip('/'))).group(1),'break',d) for d in sorted(glob.glob('/verif/seeded/*/'))]+[(re.match(r'(C\d\d)',os.path.basename(d.rstrip('/'))).group(1),'benign',d) for d in sorted(glob.glob('/verif/benign/*/'))]
def run(j):
    p,kind,d=j
    r=subprocess.run(['/venv/bin/python','/verif/tools/seedcheck.py',d+'patch.diff',p],capture_output=True,text=True)
    last=r.stdout.strip().splitlines()[-1] if r.stdout.strip() else r.stderr[-200:]
    return p,kind,os.path.basename(d.rstrip('/')),last
with ThreadPoolExecutor(int(os.environ.get('JOBS','8'))) as ex: res=list(ex.map(run,jobs))
stats={'break':[0,0,0],'benign':[0,0,0]}
for p,kind,name,last in res:
    fired=("'"+p+"'") in last.split('ERR')[0]; err=('ERR' in last) and ("'"+p+"'") in last.split('ERR')[-1]
    st='VIOLATION' if fired else ('UNDECIDED' if err else 'silent')
    stats[kind][['VIOLATION','UNDECIDED','silent'].index(st)]+=1
    bad=(kind=='break' and st!='VIOLATION') or (kind=='benign' and st=='VIOLATION')
    if bad or '-v' in sys.argv: print(f'{name:8s} {kind:6s} {st}{"   <-- unexpected" if bad else ""}')
print('breaking changes : VIOLATION %d / UNDECIDED %d / silent %d'%tuple(stats['break']))
print('benign edits     : VIOLATION %d / UNDECIDED %d / silent %d'%tuple(stats['benign']))
