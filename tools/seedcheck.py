"""seedcheck.py <patch.diff> [props...] : apply a patch to a scratch copy of /repo/src and run checks on it.
Prints per property: rc and the first VIOLATION/ANALYSIS-ERROR detail. The repo itself is not touched."""
import os,shutil,subprocess,sys,tempfile,json
from concurrent.futures import ThreadPoolExecutor
patch=os.path.abspath(sys.argv[1]); props=sys.argv[2:] or [f"C{i:02d}" for i in range(1,21)]
d=tempfile.mkdtemp(prefix='seed',dir='/dev/shm')
out={}
try:
    os.makedirs(d+'/src'); shutil.copytree('/repo/src/skmatter',d+'/src/skmatter')
    r=subprocess.run(['patch','-p1','-s','-d',d,'-i',patch],capture_output=True,text=True)
    if r.returncode!=0:
        print('PATCH FAILED',r.stdout,r.stderr); sys.exit(3)
    env=dict(os.environ,SKMATTER_SRC=d+'/src/skmatter')
    def run(p):
        r=subprocess.run(['/venv/bin/python','/verif/check.py',p],env=env,capture_output=True,text=True)
        lines=[l.strip() for l in r.stdout.splitlines() if l.startswith(('  ','ANALYSIS-ERROR'))]
        return p,r.returncode,(lines[0][:260] if lines else '')
    with ThreadPoolExecutor(8) as ex:
        for p,rc,l in ex.map(run,props):
            out[p]=rc
            if rc!=0: print(p,'rc',rc,'|',l.replace(d,''))
    print('FIRED:',[p for p,rc in out.items() if rc==1],'ERR:',[p for p,rc in out.items() if rc==2])
finally:
    shutil.rmtree(d)
