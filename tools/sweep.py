"""debug aid: run all protocols and list events that indicate engine gaps"""
import sys,collections,traceback; sys.path.insert(0,'/verif'); sys.setrecursionlimit(20000)
from sa import harness, protocols
from sa.interp import State
ctx=harness.Ctx('SWEEP')
flt=sys.argv[1] if len(sys.argv)>1 else ''
BAD=('shape-conflict','unsupported-expr','unsupported-stmt','unresolved-call','api-error','unresolved-name','opaque-call','read-missing','read-undef','index-error','key-error','none-attr','unsupported-target','setattr-unknown','maybe-unbound','ext-self-method')
for p in protocols.all_class_protocols():
    if flt not in p.name: continue
    try:
        I,st,o,res=protocols.run(ctx,p)
    except Exception as e:
        print('EXC',p.name); traceback.print_exc(); continue
    c=collections.Counter()
    for e in I.events:
        if e['kind'] in BAD:
            c[(e['kind'],e.get('short'),e.get('line'),str(e.get('src'))[:80],str(e.get('what') or e.get('fn') or e.get('attr') or e.get('name') or ''))]+=1
    print('==',p.name,'events',len(I.events),'unknown vals',I.unknown_values)
    for k,v in c.items(): print('   ',v,k)
for name,q,args,kw,order in protocols.function_protocols():
    if flt not in name: continue
    try:
        I=ctx.interp(order=order,assume=protocols.assume_default); st=State()
        r=ctx.call_func(I,st,q,*args,**kw)
    except Exception as e:
        print('EXC',name); traceback.print_exc(); continue
    c=collections.Counter()
    for e in I.events:
        if e['kind'] in BAD:
            c[(e['kind'],e.get('short'),e.get('line'),str(e.get('src'))[:80],str(e.get('what') or e.get('fn') or e.get('attr') or e.get('name') or ''))]+=1
    print('==',name,'->',repr(r)[:150])
    for k,v in c.items(): print('   ',v,k)
